package resprops

import (
	"bufio"
	"bytes"
	"context"
	"fmt"
	"io"
	"net/http"
	"net/http/httptest"
	"net/url"
	"os"
	"reflect"
	"runtime"
	"strconv"
	"strings"
	"sync"
	"sync/atomic"
	"testing"

	"github.com/PapaCharlie/go-restli/v2/restli"
	"pgregory.net/rapid"

	"verif/HARNESS/dyn"
	"verif/core/aval"
	"verif/core/hx"
	"verif/core/refcodec"
	"verif/core/schema"
)

func TestMain(m *testing.M) { hx.Main(m) }

var (
	S          *schema.Schema
	corpusSeed int64
	methods    []*dyn.MethodInfo
)

func init() {
	p := os.Getenv("VERIF_SCHEMA")
	if p == "" {
		panic("VERIF_SCHEMA not set (run through ./check)")
	}
	b, err := os.ReadFile(p)
	if err != nil {
		panic(err)
	}
	S, err = schema.Load(b)
	if err != nil {
		panic(err)
	}
	corpusSeed, _ = strconv.ParseInt(os.Getenv("VERIF_CORPUS_SEED"), 10, 64)
	methods = dyn.Methods(S)
	for _, mi := range methods {
		dyn.EnsureParams(S, mi)
	}
}

func fillDefaults(t schema.Type, v *aval.V) *aval.V {
	if v == nil {
		return nil
	}
	return aval.FillDefaults(S, t, v, refcodec.Defaults(S))
}

func pick(t *rapid.T, n int, label string) int {
	x := rapid.Uint64().Draw(t, label)
	x ^= x >> 30
	x *= 0xbf58476d1ce4e5b9
	x ^= x >> 27
	x *= 0x94d049bb133111eb
	x ^= x >> 31
	return int(x % uint64(n))
}

// ---------------------------------------------------------------------------------------------
// the world: one server holding a recording mock of every resource of the corpus

const callHeader = "X-Verif-Call"

type capture struct {
	Method   string      `json:"method"`
	URI      string      `json:"uri"`
	Header   http.Header `json:"header"`
	Body     string      `json:"body"`
	Status   int         `json:"status"`
	RespHdr  http.Header `json:"response_header"`
	RespBody string      `json:"response_body"`
}

type slot struct {
	mu          sync.Mutex
	outcome     *dyn.Outcome
	invocations []*dyn.Invocation
	wire        []*capture
	// errObj: the error object handed to the library (C08: must not be modified)
	hook func(inv *dyn.Invocation) *dyn.Outcome
	// views: what each filter saw through the request context (mount "filtered"): pre<i> / post<i>
	views map[string]string
}

type world struct {
	mount   string
	server  restli.Server
	handler http.Handler
	ts      *httptest.Server
	tsOnce  sync.Once
	slots   sync.Map // call id -> *slot
	clients sync.Map // client configuration -> *restli.Client
	nextID  atomic.Int64
	filters *filterLog
}

type filterLog struct {
	mu  sync.Mutex
	log map[string][]string
}

// viewFilter records, per call, what the documented context accessors return before and after the method.
type viewFilter struct {
	w   *world
	idx int
}

type viewCtxKey int

func contextView(ctx context.Context) string {
	var b strings.Builder
	if p, pv, _ := hx.Try(func() {
		m := restli.GetMethodFromContext(ctx)
		fmt.Fprintf(&b, "method=%s path=%+v keys=[", m, restli.GetResourcePathSegmentsFromContext(ctx))
		for _, r := range restli.GetEntitySegmentsFromContext(ctx) {
			raw, err := r.ReadRawBytes()
			if err != nil {
				fmt.Fprintf(&b, "<%v>", err)
			}
			fmt.Fprintf(&b, "%q ", raw)
		}
		b.WriteString("]")
		switch m {
		case restli.Method_finder:
			b.WriteString(" finder=" + restli.GetFinderNameFromContext(ctx))
		case restli.Method_action:
			b.WriteString(" action=" + restli.GetActionNameFromContext(ctx))
		}
	}); p {
		fmt.Fprintf(&b, " PANIC %v", pv)
	}
	return b.String()
}

func (f *viewFilter) note(id, phase, view string) {
	v, ok := f.w.slots.Load(id)
	if !ok {
		return
	}
	sl := v.(*slot)
	sl.mu.Lock()
	if sl.views == nil {
		sl.views = map[string]string{}
	}
	sl.views[fmt.Sprintf("%s%d", phase, f.idx)] = view
	sl.mu.Unlock()
}

func (f *viewFilter) PreRequest(req *http.Request) (context.Context, error) {
	id := req.Header.Get(callHeader)
	f.note(id, "pre", contextView(req.Context()))
	return context.WithValue(req.Context(), viewCtxKey(f.idx), id), nil
}

func (f *viewFilter) PostRequest(ctx context.Context, _ http.Header) error {
	id, _ := ctx.Value(viewCtxKey(f.idx)).(string)
	runtime.Gosched() // other requests may be routed between the method's return and this read
	f.note(id, "post", contextView(ctx))
	return nil
}

// viewsAgree: every filter saw the same routed method, path, keys and name before and after the method.
func viewsAgree(sl *slot) string {
	sl.mu.Lock()
	defer sl.mu.Unlock()
	if len(sl.views) == 0 {
		return ""
	}
	want, ok := sl.views["pre0"]
	if !ok {
		return fmt.Sprintf("filter 1 ran without filter 0: %v", sl.views)
	}
	for _, k := range []string{"pre1", "post1", "post0"} {
		if got, ok := sl.views[k]; ok && got != want {
			return fmt.Sprintf("filter view %s differs from what filter 0 saw before the method:\n   pre0 =%s\n   %s=%s", k, want, k, got)
		}
	}
	return ""
}

func (w *world) script(inv *dyn.Invocation) *dyn.Outcome {
	id := inv.Ctx.Request.Header.Get(callHeader)
	v, ok := w.slots.Load(id)
	if !ok {
		// a request that reached resource code without being one of ours (hostile-request checks register a catch-all slot)
		v, ok = w.slots.Load("*")
		if !ok {
			panic("harness: resource code invoked for unknown call id " + id)
		}
	}
	sl := v.(*slot)
	sl.mu.Lock()
	sl.invocations = append(sl.invocations, inv)
	hook, o := sl.hook, sl.outcome
	sl.mu.Unlock()
	if hook != nil {
		return hook(inv)
	}
	return o
}

const prefix = "/api/v1"

// newWorld registers every resource of the corpus. mount: bare | mux | prefix | prefix-mux
func newWorld(mount string) *world {
	w := &world{mount: mount}
	if strings.HasPrefix(mount, "prefix") {
		w.server = restli.NewPrefixedServer(prefix)
	} else if mount == "filtered" {
		w.server = restli.NewServer(&viewFilter{w, 0}, &viewFilter{w, 1})
	} else {
		w.server = restli.NewServer()
	}
	for _, r := range S.Resources {
		dyn.Register(w.server, r, dyn.NewMock(S, r, w.script))
	}
	switch mount {
	case "bare", "prefix", "filtered":
		w.handler = w.server.Handler()
	case "mux", "prefix-mux":
		mux := http.NewServeMux()
		w.server.AddToMux(mux)
		w.handler = mux
	default:
		panic("mount " + mount)
	}
	return w
}

func (w *world) baseURL(host string) *url.URL {
	u := &url.URL{Scheme: "http", Host: host}
	if strings.HasPrefix(w.mount, "prefix") {
		u.Path = prefix
	}
	return u
}

func (w *world) baseURLFor(host string, cfg clientConfig) *url.URL {
	u := w.baseURL(host)
	if cfg.CtxRoot != "" {
		u.Path = strings.TrimSuffix(u.Path, "/") + "/" + cfg.CtxRoot
	}
	return u
}

// inProcess is an http.RoundTripper that serialises the request to wire bytes, parses them back with
// net/http's server-side parser and serves them with the handler: everything but the socket.
type inProcess struct {
	w   *world
	cap func(*capture)
}

func (t inProcess) RoundTrip(req *http.Request) (*http.Response, error) {
	var wire bytes.Buffer
	if err := req.Write(&wire); err != nil {
		return nil, err
	}
	sreq, err := http.ReadRequest(bufio.NewReader(bytes.NewReader(wire.Bytes())))
	if err != nil {
		return nil, fmt.Errorf("harness: request does not parse as HTTP: %w\n%s", err, wire.String())
	}
	body, _ := io.ReadAll(sreq.Body)
	sreq.Body = io.NopCloser(&shortReads{r: bytes.NewReader(body)})
	c := &capture{Method: sreq.Method, URI: sreq.RequestURI, Header: sreq.Header.Clone(), Body: string(body)}
	rec := httptest.NewRecorder()
	if p, pv, st := hx.Try(func() { t.w.handler.ServeHTTP(rec, sreq) }); p {
		// a panic escaping ServeHTTP: with a real server net/http would abort the connection
		return nil, &serverCrash{value: fmt.Sprint(pv), stack: st}
	}
	res := rec.Result()
	res.Request = req
	rb, _ := io.ReadAll(res.Body)
	res.Body = io.NopCloser(&shortReads{r: bytes.NewReader(rb)})
	c.Status, c.RespHdr, c.RespBody = res.StatusCode, res.Header.Clone(), string(rb)
	if t.cap != nil {
		t.cap(c)
	}
	if v, ok := t.w.slots.Load(sreq.Header.Get(callHeader)); ok {
		sl := v.(*slot)
		sl.mu.Lock()
		sl.wire = append(sl.wire, c)
		sl.mu.Unlock()
	}
	return res, nil
}

// shortReads hands out a body the way a network connection may: at most 61 bytes per Read (io.Reader allows short
// reads; code that assumes one Read returns the whole body loses the rest).
type shortReads struct{ r io.Reader }

func (s *shortReads) Read(p []byte) (int, error) {
	if len(p) > 61 {
		p = p[:61]
	}
	return s.r.Read(p)
}

type serverCrash struct{ value, stack string }

func (s *serverCrash) Error() string {
	return "the server handler panicked outside of any recover (a real connection would be aborted): " + s.value + "\n" + trimStack(s.stack)
}

func trimStack(st string) string {
	var keep []string
	for _, l := range strings.Split(st, "\n") {
		if strings.Contains(l, "go-restli") && !strings.HasPrefix(l, "\t") {
			if i := strings.LastIndex(l, "("); i > 0 {
				l = l[:i]
			}
			keep = append(keep, "   at "+strings.TrimSpace(l))
		}
		if len(keep) >= 6 {
			break
		}
	}
	return strings.Join(keep, "\n")
}

type clientConfig struct {
	Threshold int    `json:"tunnelling_threshold"`
	Strict    bool   `json:"strict"`
	Transport string `json:"transport"` // inprocess | http
	// CtxRoot: the resolver's context path ends with this root resource name (the client must then emit the root segment
	// exactly once); "" = plain context path
	CtxRoot string `json:"ctx_root,omitempty"`
}

// client returns THE client of the world for a configuration: like an application, the harness keeps one client (and one
// resolver with its one base URL object) per configuration and sends every call through it, so whatever a call leaves
// behind in the client, the resolver or the base URL is seen by the calls after it.
func (w *world) client(cfg clientConfig, sl *slot) *restli.Client {
	key := fmt.Sprintf("%+v", cfg)
	if c, ok := w.clients.Load(key); ok {
		return c.(*restli.Client)
	}
	c := &restli.Client{StrictResponseDeserialization: cfg.Strict, QueryTunnellingThreshold: cfg.Threshold}
	if cfg.Transport == "http" {
		w.tsOnce.Do(func() { w.ts = httptest.NewServer(w.handler) })
		u, _ := url.Parse(w.ts.URL)
		c.Client = w.ts.Client()
		c.HostnameResolver = &restli.SimpleHostnameResolver{Hostname: w.baseURLFor(u.Host, cfg)}
	} else {
		// (the capture is filed under the slot named by the call header)
		c.Client = &http.Client{Transport: inProcess{w, nil}}
		c.HostnameResolver = &restli.SimpleHostnameResolver{Hostname: w.baseURLFor("verif.test", cfg)}
	}
	actual, _ := w.clients.LoadOrStore(key, c)
	return actual.(*restli.Client)
}

// do performs one abstract call against the world with a scripted outcome.
func (w *world) do(cfg clientConfig, call *dyn.Call, scripted *dyn.Outcome, hook func(*dyn.Invocation) *dyn.Outcome) (got *dyn.Outcome, err error, sl *slot, keep *dyn.KeepKeys, retKeys map[string]reflect.Value) {
	id := fmt.Sprintf("c%d", w.nextID.Add(1))
	sl = &slot{outcome: scripted, hook: hook}
	w.slots.Store(id, sl)
	defer w.slots.Delete(id)
	ctx := restli.ExtraRequestHeaders(context.Background(), func() (http.Header, error) {
		return http.Header{callHeader: []string{id}}, nil
	})
	keep = &dyn.KeepKeys{}
	got, err, rk := dyn.CallClient(S, ctx, w.client(cfg, sl), call, keep)
	return got, err, sl, keep, rk
}

var worlds sync.Map

func getWorld(mount string) *world {
	if w, ok := worlds.Load(mount); ok {
		return w.(*world)
	}
	w, _ := worlds.LoadOrStore(mount, newWorld(mount))
	return w.(*world)
}

func min3(n int) int {
	if n > 3 {
		return 3
	}
	return n
}

func bufioReader(b []byte) *bufio.Reader { return bufio.NewReader(bytes.NewReader(b)) }

func newRecorder() *httptest.ResponseRecorder { return httptest.NewRecorder() }

func contextBackground() context.Context { return context.Background() }

// validValue is a valid value of the type (aval.Zero may hold an unknown enum constant / unset union).
func validValue(t schema.Type) *aval.V { return aval.Valid(S, t) }

// benignOutcome is a well-formed, empty successful outcome for any method.
func benignOutcome(mi *dyn.MethodInfo) *dyn.Outcome {
	switch {
	case mi.Rest() == "create":
		c := &dyn.CreatedM{Id: validValue(*mi.KeyType)}
		if mi.M.ReturnEntity {
			c.Entity = validValue(*mi.Entity)
		}
		return &dyn.Outcome{Created: c}
	case mi.Rest() == "batch_create":
		return &dyn.Outcome{HasBatchCr: true}
	case mi.Rest() == "get":
		return &dyn.Outcome{Entity: validValue(*mi.Entity)}
	case mi.Rest() == "partial_update" && mi.M.ReturnEntity:
		return &dyn.Outcome{Entity: validValue(*mi.Entity)}
	case strings.HasPrefix(mi.Rest(), "batch_"):
		return &dyn.Outcome{HasBatch: true}
	case mi.M.Kind == "FINDER" || mi.Rest() == "get_all":
		o := &dyn.Outcome{HasElements: true}
		if mi.M.Metadata != nil {
			o.Metadata = validValue(*mi.M.Metadata)
		}
		return o
	case mi.M.Kind == "ACTION" && mi.M.Return != nil:
		return &dyn.Outcome{Action: validValue(*mi.M.Return)}
	}
	return &dyn.Outcome{}
}
