package resprops

// C07 (wire level) - read-only / create-only exclusion through the generated bindings:
//  * a partial update touching an annotated field fails on the client before anything is sent;
//  * a server answers 400, without invoking the resource, to any create / update / partial update (single or
//    batch) whose body carries a value at an annotated path.
// (create / update never transmitting annotated fields is part of C02's expectation model.)

import (
	"fmt"
	"net/http"
	"net/http/httptest"
	"strings"
	"testing"

	"pgregory.net/rapid"

	"verif/HARNESS/dyn"
	"verif/core/aval"
	"verif/core/hx"
	"verif/core/model/pathmodel"
	"verif/core/refcodec"
	"verif/core/schema"
	"verif/core/stats"
)

type wireExclCase struct {
	CorpusSeed int64    `json:"corpus_seed"`
	Mode       string   `json:"mode"` // client-patch | server-body
	Method     string   `json:"method"`
	Resource   string   `json:"resource"`
	Call       dyn.Call `json:"call,omitempty"`
	Verb       string   `json:"verb,omitempty"`
	URI        string   `json:"uri,omitempty"`
	Body       string   `json:"body,omitempty"`
	Offending  bool     `json:"offending"`
}

func annotatedMethods() []*dyn.MethodInfo {
	var out []*dyn.MethodInfo
	for _, mi := range methods {
		if len(mi.R.ReadOnly)+len(mi.R.CreateOnly) > 0 {
			out = append(out, mi)
		}
	}
	return out
}

// patchTouches reports whether the patch deletes, sets or patches a value at a path matched by the spec
// (wholesale sets of a parent of an annotated path are not counted: unspecified).
func patchTouches(p *dyn.PatchM, spec pathmodel.Spec, prefix []string) (touches, ambiguous bool) {
	at := func(n string) []string { return append(append([]string(nil), prefix...), n) }
	parentOfSpec := func(path []string) bool {
		for _, q := range spec {
			if len(q) > len(path) {
				ok := true
				for i := range path {
					if q[i] != "*" && q[i] != path[i] {
						ok = false
					}
				}
				if ok {
					return true
				}
			}
		}
		return false
	}
	for _, d := range p.Deletes {
		if spec.Excluded(at(d)) {
			touches = true
		} else if parentOfSpec(at(d)) {
			ambiguous = true
		}
	}
	for k := range p.Sets {
		if spec.Excluded(at(k)) {
			touches = true
		} else if parentOfSpec(at(k)) {
			ambiguous = true
		}
	}
	for k, n := range p.Nested {
		if spec.Excluded(at(k)) {
			touches = true
		}
		t, a := patchTouches(n, spec, at(k))
		touches = touches || t
		ambiguous = ambiguous || a
	}
	return
}

// serverRequest sends raw wire bytes to the bare handler and reports status + invocations.
func serverRequest(w *world, verb, uri, method, body string) (status int, respBody string, invoked int, crash string) {
	sl := &slot{outcome: &dyn.Outcome{HasBatch: true}}
	// whatever method is hit gets a benign outcome
	sl.hook = benignHook
	id := fmt.Sprintf("raw%d", w.nextID.Add(1))
	w.slots.Store(id, sl)
	defer w.slots.Delete(id)
	req := httptest.NewRequest(verb, "http://verif.test"+uri, strings.NewReader(body))
	req.Header.Set(callHeader, id)
	req.Header.Set("X-RestLi-Protocol-Version", "2.0.0")
	if method != "" {
		req.Header.Set("X-RestLi-Method", method)
	}
	if body != "" {
		req.Header.Set("Content-Type", "application/json")
	}
	rec := httptest.NewRecorder()
	if p, pv, st := hx.Try(func() { w.handler.ServeHTTP(rec, req) }); p {
		return 0, "", len(sl.invocations), fmt.Sprintf("%v\n%s", pv, trimStack(st))
	}
	return rec.Code, rec.Body.String(), len(sl.invocations), ""
}

func checkWireExclusion(rec *stats.Recorder, c wireExclCase) string {
	w := getWorld("bare")
	rec.Case("mode="+c.Mode, "method="+c.Method, fmt.Sprintf("offending=%v", c.Offending))
	rec.NonTrivial(c.Mode+"/"+c.Method, hx.J(c), func() any { return c })
	switch c.Mode {
	case "client-patch":
		_, err, sl, _, _ := w.do(clientConfig{Transport: "inprocess"}, &c.Call, &dyn.Outcome{HasBatch: true, Entity: nil}, func(inv *dyn.Invocation) *dyn.Outcome {
			mi := dyn.FindMethod(S, inv.Call.Resource, inv.Call.Method)
			if mi.M.ReturnEntity {
				return &dyn.Outcome{Entity: aval.Zero(S, *mi.Entity)}
			}
			return &dyn.Outcome{HasBatch: true}
		})
		if c.Offending {
			if err == nil {
				return fmt.Sprintf("a partial update touching a read-only / create-only field was accepted and sent: %s", hx.J(c.Call))
			}
			if len(sl.wire) != 0 {
				return fmt.Sprintf("a partial update touching an annotated field was rejected only after %d request(s) had been sent (%v)", len(sl.wire), err)
			}
		} else if err != nil {
			return fmt.Sprintf("a partial update that touches no annotated field failed: %v\n call=%s", err, hx.J(c.Call))
		}
	case "server-body":
		status, body, invoked, crash := serverRequest(w, c.Verb, c.URI, c.Method, c.Body)
		if crash != "" {
			return "the server crashed: " + crash
		}
		if c.Offending {
			if invoked != 0 {
				return fmt.Sprintf("a %s body carrying a value at an annotated path reached resource code (status %d)\n %s %s\n body=%s", c.Method, status, c.Verb, c.URI, c.Body)
			}
			if status != http.StatusBadRequest {
				return fmt.Sprintf("a %s body carrying a value at an annotated path was answered %d, want 400\n %s %s\n body=%s\n response=%s", c.Method, status, c.Verb, c.URI, c.Body, hx.Q(body))
			}
		} else if status >= 400 || invoked != 1 {
			return fmt.Sprintf("a %s body without any annotated field was answered %d (%d invocations)\n %s %s\n body=%s\n response=%s", c.Method, status, invoked, c.Verb, c.URI, c.Body, hx.Q(body))
		}
	}
	return ""
}

// entityTree renders an entity with or without the values the spec excludes.
func entityTree(t schema.Type, v *aval.V, spec pathmodel.Spec, keep bool) (*refcodec.Tree, bool) {
	c := v.Clone()
	before := c.Canon()
	pruned := v.Clone()
	pruneExcluded(t, pruned, spec, nil)
	has := pruned.Canon() != before
	if !keep {
		c = pruned
	}
	return refcodec.TreeOf(S, t, c, refcodec.Opts{Bytes: refcodec.RawUTF8}), has
}

func TestC07Wire(t *testing.T) {
	rec := stats.For("C07")
	g := keyGen()
	ams := annotatedMethods()
	if len(ams) == 0 {
		panic("corpus has no annotated resource")
	}
	if c, ok := hx.Replay[wireExclCase]("C07", "wire"); ok {
		if msg := checkWireExclusion(rec, c); msg != "" {
			rec.Violation("wire-"+c.Mode, msg, c)
			t.Fatal(msg)
		}
		return
	} else if hx.Replaying() {
		t.Skip()
	}
	rapid.Check(t, func(rt *rapid.T) {
		mi := ams[pick(rt, len(ams), "method")]
		c := wireExclCase{CorpusSeed: corpusSeed, Method: mi.M.Name, Resource: mi.R.Namespace}
		all := pathmodel.Parse(append(append([]string(nil), mi.R.ReadOnly...), mi.R.CreateOnly...))
		ro := pathmodel.Parse(mi.R.ReadOnly)
		key := func() string {
			return refcodec.RenderROR2(refcodec.TreeOf(S, *mi.KeyType, genKey(rt, g, *mi.KeyType), refcodec.Opts{ROR2: true}), refcodec.ROR2Opts{Flavour: refcodec.Path})
		}
		base := "/" + mi.R.Last().Name
		switch mi.Rest() {
		case "partial_update", "batch_partial_update":
			if rapid.Bool().Draw(rt, "client") {
				c.Mode = "client-patch"
				c.Call = dyn.Call{Resource: mi.R.Namespace, Method: mi.Func}
				p := genPatch(rt, g, *mi.Entity, nil)
				touches, amb := patchTouches(p, all, nil)
				if amb && !touches {
					rt.Skip() // wholesale set / delete of the parent of an annotated path: left unspecified
				}
				c.Offending = touches
				if mi.Rest() == "partial_update" {
					c.Call.PathKeys = []*aval.V{genKey(rt, g, *mi.KeyType)}
					c.Call.Patch = p
				} else {
					c.Call.EntityMap = []dyn.KV{{K: genKey(rt, g, *mi.KeyType), P: p}}
				}
			} else {
				c.Mode = "server-body"
				p := genPatch(rt, g, *mi.Entity, nil)
				touches, amb := patchTouches(p, all, nil)
				if (amb && !touches) || !p.Legal() {
					rt.Skip()
				}
				c.Offending = touches
				pt := dyn.PatchTree(S, S.Lookup(*mi.Entity.Ref), p)
				if mi.Rest() == "partial_update" {
					c.Verb, c.URI = "POST", base+"/"+key()
					c.Body = refcodec.RenderJSON(refcodec.Obj(refcodec.KV{K: "patch", V: pt}), refcodec.JSONOpts{})
				} else {
					k := key()
					c.Verb, c.URI = "POST", base+"?ids=List("+k+")"
					hk := refcodec.RenderROR2(refcodec.TreeOf(S, *mi.KeyType, aval.Int64(7), refcodec.Opts{ROR2: true}), refcodec.ROR2Opts{Flavour: refcodec.Header})
					c.URI = base + "?ids=List(7)"
					c.Body = refcodec.RenderJSON(refcodec.Obj(refcodec.KV{K: "entities", V: refcodec.Obj(refcodec.KV{K: hk, V: refcodec.Obj(refcodec.KV{K: "patch", V: pt})})}), refcodec.JSONOpts{})
					if mi.KeyType.Prim != "int64" {
						rt.Skip()
					}
				}
			}
		case "create", "batch_create", "update", "batch_update":
			c.Mode = "server-body"
			spec := all
			if mi.Rest() == "create" || mi.Rest() == "batch_create" {
				spec = ro
			}
			v := g.Value(rt, *mi.Entity, 1)
			keep := rapid.Bool().Draw(rt, "keep")
			tr, has := entityTree(*mi.Entity, v, spec, keep)
			c.Offending = keep && has
			ent := refcodec.RenderJSON(tr, refcodec.JSONOpts{})
			switch mi.Rest() {
			case "create":
				c.Verb, c.URI, c.Body = "POST", base, ent
			case "update":
				c.Verb, c.URI, c.Body = "PUT", base+"/"+key(), ent
			case "batch_create":
				c.Verb, c.URI, c.Body = "POST", base, `{"elements":[`+ent+`]}`
			case "batch_update":
				if mi.KeyType.Prim != "int64" && mi.KeyType.Prim != "string" {
					rt.Skip()
				}
				c.Verb, c.URI, c.Body = "PUT", base+"?ids=List(7)", `{"entities":{"7":`+ent+`}}`
			}
		default:
			rt.Skip()
		}
		if msg := checkWireExclusion(rec, c); msg != "" {
			rec.Violation("wire-"+c.Mode, msg, c)
			rt.Fatalf("property violated (details in the replay file)")
		}
	})
}
