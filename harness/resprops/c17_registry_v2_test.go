//verif:v2only the custom-typeref registry (restlicodec.RegisterCustomTyperef / CustomTyperefEquals) does not exist in the root module

package resprops

// C17, third part: concurrent round trips through the custom-typeref registry (v2 only: the root module has no such
// registry, its generator has no notion of custom typerefs).

import (
	"fmt"
	"runtime"
	"sync"
	"testing"

	"github.com/PapaCharlie/go-restli/v2/fnv1a"
	"github.com/PapaCharlie/go-restli/v2/restlicodec"
	"pgregory.net/rapid"

	"verif/core/hx"
	"verif/core/stats"
)

// ---------------------------------------------------------------------------------------------
// custom typeref registry

type celsius int32

func init() {
	restlicodec.RegisterCustomTyperef(
		func(c celsius) (int32, error) { return int32(c), nil },
		func(i int32) (celsius, error) { return celsius(i), nil },
		func(c celsius) fnv1a.Hash { return fnv1a.HashInt32(int32(c)) },
		func(a, b celsius) bool { return a == b },
	)
}

func TestC17Registry(t *testing.T) {
	rec := stats.For("C17")
	if hx.Replaying() {
		t.Skip()
	}
	rapid.Check(t, func(rt *rapid.T) {
		n := rapid.IntRange(2, 32).Draw(rt, "n")
		vals := rapid.SliceOfN(rapid.Int32(), n, n).Draw(rt, "vals")
		rec.Case("registry")
		rec.NonTrivial("registry", fmt.Sprint(vals), func() any { return vals })
		var wg sync.WaitGroup
		bad := make(chan string, n)
		for _, v := range vals {
			wg.Add(1)
			go func(v int32) {
				defer wg.Done()
				w := restlicodec.NewCompactJsonWriter()
				if err := restlicodec.MarshalRestLi(celsius(v), w); err != nil {
					bad <- err.Error()
					return
				}
				doc := w.Finalize()
				r, _ := restlicodec.NewJsonReader([]byte(doc))
				back, err := restlicodec.UnmarshalRestLi[celsius](r)
				if err != nil || back != celsius(v) || !restlicodec.CustomTyperefEquals[celsius]()(back, celsius(v)) {
					bad <- fmt.Sprintf("custom typeref %d came back as %d (%v) through document %s", v, back, err, doc)
				}
			}(v)
		}
		wg.Wait()
		select {
		case m := <-bad:
			rec.Violation("registry", m, vals)
			rt.Fatalf("property violated (details in the replay file)")
		default:
		}
	})
}

// ---------------------------------------------------------------------------------------------
// concurrent registration: packages register their custom typerefs from init functions and, with plugins or lazily
// initialised packages, from several goroutines; every registration that returned must be in effect afterwards

// probe is a family of distinct named types (one per type argument), each usable as a custom typeref over int32.
type probe[Tag any] int32

// regProbe returns a function registering probe[Tag] and one checking that the registration is in effect.
func regProbe[Tag any]() [2]func() string {
	return [2]func() string{
		func() string {
			restlicodec.RegisterCustomTyperef(
				func(c probe[Tag]) (int32, error) { return int32(c), nil },
				func(i int32) (probe[Tag], error) { return probe[Tag](i), nil },
				func(c probe[Tag]) fnv1a.Hash { return fnv1a.HashInt32(int32(c)) },
				func(a, b probe[Tag]) bool { return a == b },
			)
			return ""
		},
		func() (msg string) {
			defer func() {
				if r := recover(); r != nil {
					msg = fmt.Sprintf("custom typeref %T was registered (RegisterCustomTyperef returned) but is not in the registry: %v", probe[Tag](0), r)
				}
			}()
			w := restlicodec.NewCompactJsonWriter()
			if err := restlicodec.MarshalRestLi(probe[Tag](41), w); err != nil {
				return err.Error()
			}
			r, _ := restlicodec.NewJsonReader([]byte(w.Finalize()))
			back, err := restlicodec.UnmarshalRestLi[probe[Tag]](r)
			if err != nil || back != 41 {
				return fmt.Sprintf("custom typeref %T came back as %d (%v)", probe[Tag](0), back, err)
			}
			return ""
		},
	}
}

func TestC17ConcurrentRegistration(t *testing.T) {
	rec := stats.For("C17")
	if hx.Replaying() {
		t.Skip()
	}
	// a type can be registered once per process: one barrier-released round per test process (every shard runs one)
	probes := [][2]func() string{
		regProbe[[0]byte](),
		regProbe[[1]byte](),
		regProbe[[2]byte](),
		regProbe[[3]byte](),
		regProbe[[4]byte](),
		regProbe[[5]byte](),
		regProbe[[6]byte](),
		regProbe[[7]byte](),
		regProbe[[8]byte](),
		regProbe[[9]byte](),
		regProbe[[10]byte](),
		regProbe[[11]byte](),
		regProbe[[12]byte](),
		regProbe[[13]byte](),
		regProbe[[14]byte](),
		regProbe[[15]byte](),
		regProbe[[16]byte](),
		regProbe[[17]byte](),
		regProbe[[18]byte](),
		regProbe[[19]byte](),
		regProbe[[20]byte](),
		regProbe[[21]byte](),
		regProbe[[22]byte](),
		regProbe[[23]byte](),
		regProbe[[24]byte](),
		regProbe[[25]byte](),
		regProbe[[26]byte](),
		regProbe[[27]byte](),
		regProbe[[28]byte](),
		regProbe[[29]byte](),
		regProbe[[30]byte](),
		regProbe[[31]byte](),
	}
	old := runtime.GOMAXPROCS(8)
	defer runtime.GOMAXPROCS(old)
	start := make(chan struct{})
	var wg sync.WaitGroup
	for _, p := range probes {
		wg.Add(1)
		go func(reg func() string) {
			defer wg.Done()
			<-start
			reg()
		}(p[0])
	}
	close(start)
	wg.Wait()
	rec.Case("registry_concurrent_registration")
	rec.NonTrivial("registry-registration", fmt.Sprintf("registration|%d", len(probes)), func() any { return map[string]any{"types_registered_concurrently": len(probes)} })
	for _, p := range probes {
		if msg := p[1](); msg != "" {
			rec.Violation("registry-registration", msg, map[string]any{"types": len(probes)})
			t.Fatal(msg)
		}
	}
}
