//verif:v2only the custom-typeref registry (restlicodec.RegisterCustomTyperef / CustomTyperefEquals) does not exist in the root module

package resprops

// C17, third part: concurrent round trips through the custom-typeref registry (v2 only: the root module has no such
// registry, its generator has no notion of custom typerefs).

import (
	"fmt"
	"sync"
	"testing"

	"github.com/PapaCharlie/go-restli/v2/fnv1a"
	"github.com/PapaCharlie/go-restli/v2/restlicodec"
	"pgregory.net/rapid"

	"verif/core/hx"
	"verif/core/stats"
)

// ---------------------------------------------------------------------------------------------
// custom typeref registry

type celsius int32

func init() {
	restlicodec.RegisterCustomTyperef(
		func(c celsius) (int32, error) { return int32(c), nil },
		func(i int32) (celsius, error) { return celsius(i), nil },
		func(c celsius) fnv1a.Hash { return fnv1a.HashInt32(int32(c)) },
		func(a, b celsius) bool { return a == b },
	)
}

func TestC17Registry(t *testing.T) {
	rec := stats.For("C17")
	if hx.Replaying() {
		t.Skip()
	}
	rapid.Check(t, func(rt *rapid.T) {
		n := rapid.IntRange(2, 32).Draw(rt, "n")
		vals := rapid.SliceOfN(rapid.Int32(), n, n).Draw(rt, "vals")
		rec.Case("registry")
		rec.NonTrivial("registry", fmt.Sprint(vals), func() any { return vals })
		var wg sync.WaitGroup
		bad := make(chan string, n)
		for _, v := range vals {
			wg.Add(1)
			go func(v int32) {
				defer wg.Done()
				w := restlicodec.NewCompactJsonWriter()
				if err := restlicodec.MarshalRestLi(celsius(v), w); err != nil {
					bad <- err.Error()
					return
				}
				doc := w.Finalize()
				r, _ := restlicodec.NewJsonReader([]byte(doc))
				back, err := restlicodec.UnmarshalRestLi[celsius](r)
				if err != nil || back != celsius(v) || !restlicodec.CustomTyperefEquals[celsius]()(back, celsius(v)) {
					bad <- fmt.Sprintf("custom typeref %d came back as %d (%v) through document %s", v, back, err, doc)
				}
			}(v)
		}
		wg.Wait()
		select {
		case m := <-bad:
			rec.Violation("registry", m, vals)
			rt.Fatalf("property violated (details in the replay file)")
		default:
		}
	})
}
