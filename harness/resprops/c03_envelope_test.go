package resprops

// C03, last clause: "Request and response envelopes (elements/paging/metadata, value, entities, results/statuses/errors,
// id/location/status, protocol-version and method headers) have the shape the protocol prescribes."
// Every generated valid call is sent through the generated client to the generated server; the captured request and
// response are read with the independent reference parser and compared with the Rest.li protocol 2.0 shapes:
//   verb / X-RestLi-Method per method, X-RestLi-Protocol-Version on both sides, tunnelled requests as POST +
//   X-HTTP-Method-Override with the query in a form body or the first part of multipart/mixed, JSON content type on
//   bodies, and the top-level members of every request / response body.

import (
	"fmt"
	"mime"
	"strings"
	"testing"

	"pgregory.net/rapid"

	"verif/HARNESS/dyn"
	"verif/core/aval"
	"verif/core/hx"
	"verif/core/refcodec"
	"verif/core/schema"
	"verif/core/stats"
)

// protocol table: HTTP verb and X-RestLi-Method value per kind of method
func wireMethod(mi *dyn.MethodInfo) (verb, name string) {
	switch {
	case mi.M.Kind == "FINDER":
		return "GET", "finder"
	case mi.M.Kind == "ACTION":
		return "POST", "action"
	}
	switch mi.Rest() {
	case "get", "get_all", "batch_get":
		return "GET", mi.Rest()
	case "create", "batch_create", "partial_update", "batch_partial_update":
		return "POST", mi.Rest()
	case "update", "batch_update":
		return "PUT", mi.Rest()
	case "delete", "batch_delete":
		return "DELETE", mi.Rest()
	}
	panic("method " + mi.Func)
}

func memberSet(tr *refcodec.Tree) string {
	var ks []string
	for _, kv := range tr.Obj {
		ks = append(ks, kv.K)
	}
	return strings.Join(ks, ",")
}

func onlyMembers(tr *refcodec.Tree, required []string, optional ...string) string {
	if tr.Kind != "obj" {
		return "is not a JSON object"
	}
	seen := map[string]bool{}
	for _, kv := range tr.Obj {
		seen[kv.K] = true
	}
	for _, r := range required {
		if !seen[r] {
			return fmt.Sprintf("lacks the member %q (has %s)", r, memberSet(tr))
		}
		delete(seen, r)
	}
	for _, o := range optional {
		delete(seen, o)
	}
	for k := range seen {
		return fmt.Sprintf("has the unexpected member %q", k)
	}
	return ""
}

// denotedKey reads a ROR2-encoded key (header value, last path segment, member name of a batch body) with the reference
// parser and returns its identity under key equality.
func denotedKey(kt schema.Type, raw string) (string, error) {
	tr, err := refcodec.ParseROR2(raw)
	if err != nil {
		return "", err
	}
	v, err := refcodec.FromTree(S, kt, tr, refcodec.Opts{Bytes: refcodec.RawUTF8, ROR2: true})
	if err != nil {
		return "", err
	}
	return keyIdentity(kt, v), nil
}

// sameKeySet: the member names of a batch body denote exactly the given keys (as a set under key equality).
func sameKeySet(kt schema.Type, obj *refcodec.Tree, want []*aval.V) string {
	if obj == nil {
		if len(want) == 0 {
			return ""
		}
		return fmt.Sprintf("is absent, want %d keys", len(want))
	}
	if obj.Kind != "obj" {
		return "is not a JSON object"
	}
	ws := map[string]bool{}
	for _, k := range want {
		ws[keyIdentity(kt, k)] = true
	}
	gs := map[string]bool{}
	for _, kv := range obj.Obj {
		id, err := denotedKey(kt, kv.K)
		if err != nil {
			return fmt.Sprintf("has the member %q, which is not a well-formed key of the resource: %v", kv.K, err)
		}
		if !ws[id] {
			return fmt.Sprintf("has the member %q, which denotes none of the %d expected keys", kv.K, len(want))
		}
		gs[id] = true
	}
	if len(gs) != len(ws) {
		return fmt.Sprintf("names %d distinct keys, want %d", len(gs), len(ws))
	}
	return ""
}

func kvKeys(kvs []dyn.KV) []*aval.V {
	var out []*aval.V
	for _, kv := range kvs {
		out = append(out, kv.K)
	}
	return out
}

func checkEnvelope(rec *stats.Recorder, c callCase) string {
	mi := dyn.FindMethod(S, c.Call.Resource, c.Call.Method)
	w := getWorld(c.Mount)
	labels, _ := callLabels(mi, &c)
	rec.Case(append(labels, "direction=envelope")...)
	rec.NonTrivial("envelope/"+c.Call.Method, "env|"+hx.J(c.Call)+hx.J(c.Config)+c.Mount, func() any { return c })
	var sl *slot
	var err error
	if p, pv, st := hx.Try(func() { _, err, sl, _, _ = w.do(c.Config, &c.Call, &c.Outcome, nil) }); p {
		return fmt.Sprintf("client call panicked: %v\n%s", pv, st)
	}
	if sl == nil || len(sl.wire) != 1 {
		return "" // nothing, or more than one request, was sent: the call itself is C02's subject
	}
	cp := sl.wire[0]
	rec.Label("envelope_checked", 1)
	if cp.Header.Get("X-HTTP-Method-Override") != "" {
		rec.Label("envelope_checked_tunnelled", 1)
	}
	fail := func(format string, a ...any) string {
		return fmt.Sprintf(format, a...) + fmt.Sprintf("\n %s.%s mount=%s config=%+v\n wire: %s %s headers=%v body=%s\n  -> %d headers=%v body=%s", c.Call.Resource, c.Call.Method, c.Mount, c.Config,
			cp.Method, cp.URI, cp.Header, hx.Q(clip(cp.Body)), cp.Status, cp.RespHdr, hx.Q(clip(cp.RespBody)))
	}
	verb, name := wireMethod(mi)
	// ---- request headers ----
	if v := cp.Header.Get("X-RestLi-Protocol-Version"); v != "2.0.0" {
		return fail("request X-RestLi-Protocol-Version is %q, want 2.0.0", v)
	}
	if v := cp.Header.Get("X-RestLi-Method"); v != name {
		return fail("request X-RestLi-Method is %q, want %q", v, name)
	}
	body, query := cp.Body, ""
	if i := strings.Index(cp.URI, "?"); i >= 0 {
		query = cp.URI[i+1:]
	}
	if ov := cp.Header.Get("X-HTTP-Method-Override"); ov != "" || cp.Method != verb {
		// a tunnelled request: POST, the override names the verb, no URL query, the query travels in the body
		if cp.Method != "POST" || ov != verb {
			return fail("the request is %s with X-HTTP-Method-Override %q; a %s is sent as %s, or tunnelled as POST with the override %s", cp.Method, ov, name, verb, verb)
		}
		if query != "" {
			return fail("tunnelled request keeps a URL query")
		}
		mt, params, perr := mime.ParseMediaType(cp.Header.Get("Content-Type"))
		switch {
		case perr != nil:
			return fail("tunnelled request has an unparseable Content-Type: %v", perr)
		case mt == "application/x-www-form-urlencoded":
			body = ""
		case mt == "multipart/mixed":
			parts := strings.Split(cp.Body, "--"+params["boundary"])
			if len(parts) != 4 || strings.TrimSpace(parts[3]) != "--" {
				return fail("tunnelled multipart body does not consist of exactly two parts")
			}
			for i, want := range []string{"application/x-www-form-urlencoded", "application/json"} {
				head, content, _ := strings.Cut(strings.TrimPrefix(parts[1+i], "\r\n"), "\r\n\r\n")
				if !strings.Contains(strings.ToLower(head), "content-type: "+want) {
					return fail("part %d of the tunnelled body is not of type %s: %q", i+1, want, head)
				}
				if i == 1 {
					body = strings.TrimSuffix(content, "\r\n")
				}
			}
		default:
			return fail("tunnelled request has Content-Type %q", mt)
		}
	} else if body != "" {
		if mt, _, _ := mime.ParseMediaType(cp.Header.Get("Content-Type")); mt != "application/json" {
			return fail("request with a body has Content-Type %q, want application/json", cp.Header.Get("Content-Type"))
		}
	}
	// ---- request body ----
	wantBody := map[string]bool{"create": true, "batch_create": true, "update": true, "batch_update": true, "partial_update": true, "batch_partial_update": true}[mi.Rest()] || mi.M.Kind == "ACTION"
	if !wantBody && body != "" {
		return fail("a %s request carries a body", name)
	}
	if wantBody {
		tr, perr := refcodec.ParseJSON([]byte(body))
		if perr != nil {
			return fail("request body is not well-formed JSON: %v", perr)
		}
		var m string
		switch {
		case mi.Rest() == "batch_create":
			m = onlyMembers(tr, []string{"elements"})
		case mi.Rest() == "batch_update" || mi.Rest() == "batch_partial_update":
			m = onlyMembers(tr, []string{"entities"})
			if m == "" && mi.Rest() == "batch_partial_update" {
				for _, kv := range tr.Get("entities").Obj {
					if mm := onlyMembers(kv.V, []string{"patch"}); mm != "" {
						m = "entity " + kv.K + " " + mm
					}
				}
			}
		case mi.Rest() == "partial_update":
			m = onlyMembers(tr, []string{"patch"})
		default:
			if tr.Kind != "obj" {
				m = "is not a JSON object"
			}
		}
		if m != "" {
			return fail("%s request body %s", name, m)
		}
		if mi.Rest() == "batch_update" && mi.KeyType != nil {
			if m := sameKeySet(*mi.KeyType, tr.Get("entities"), kvKeys(c.Call.EntityMap)); m != "" {
				return fail("%s request: entities %s", name, m)
			}
		}
	}
	// ---- response ----
	if err != nil {
		// the call failed (an error outcome was drawn, or the peer could not make sense of the request): the request that
		// was sent has been judged above, the response of a failing call is C02's and C08's subject
		rec.Label("envelope_request_only", 1)
		return ""
	}
	if v := cp.RespHdr.Get("X-RestLi-Protocol-Version"); v != "2.0.0" {
		return fail("response X-RestLi-Protocol-Version is %q, want 2.0.0", v)
	}
	if v := cp.RespHdr.Get("X-RestLi-Error-Response"); v != "" {
		return fail("a successful response carries X-RestLi-Error-Response: %q", v)
	}
	var rt *refcodec.Tree
	if cp.RespBody != "" {
		if mt, _, _ := mime.ParseMediaType(cp.RespHdr.Get("Content-Type")); mt != "application/json" {
			return fail("response with a body has Content-Type %q, want application/json", cp.RespHdr.Get("Content-Type"))
		}
		var perr error
		if rt, perr = refcodec.ParseJSON([]byte(cp.RespBody)); perr != nil {
			return fail("response body is not well-formed JSON: %v", perr)
		}
	}
	need := func(what string, required []string, optional ...string) string {
		if rt == nil {
			return fail("%s response has no body", what)
		}
		if m := onlyMembers(rt, required, optional...); m != "" {
			return fail("%s response body %s", what, m)
		}
		return ""
	}
	switch {
	case mi.M.Kind == "FINDER" || mi.Rest() == "get_all":
		if m := need("collection", []string{"elements"}, "paging", "metadata"); m != "" {
			return m
		}
		if p := rt.Get("paging"); p != nil {
			if m := onlyMembers(p, []string{"start", "count"}, "total", "links"); m != "" {
				return fail("paging %s", m)
			}
		}
	case mi.M.Kind == "ACTION":
		if mi.M.Return != nil {
			if m := need("action", []string{"value"}); m != "" {
				return m
			}
		} else if rt != nil {
			return fail("an action without result answers with a body")
		}
	case mi.Rest() == "create":
		if cp.Status != 201 && c.Outcome.Created != nil && c.Outcome.Created.Status == 0 {
			return fail("create answered %d, want 201", cp.Status)
		}
		if cp.RespHdr.Get("X-RestLi-Id") == "" {
			return fail("create response lacks X-RestLi-Id")
		}
		if cr := c.Outcome.Created; cr != nil && !cr.Nil && cr.Id != nil && mi.KeyType != nil {
			want := keyIdentity(*mi.KeyType, cr.Id)
			if got, kerr := denotedKey(*mi.KeyType, cp.RespHdr.Get("X-RestLi-Id")); kerr != nil || got != want {
				return fail("X-RestLi-Id %q does not denote the created id %s (%v)", cp.RespHdr.Get("X-RestLi-Id"), cr.Id.Canon(), kerr)
			}
			rec.Label("envelope_created_id_compared", 1)
			if loc := cp.RespHdr.Get("Location"); loc != "" {
				i := strings.LastIndex(loc, "/")
				reqPath, _, _ := strings.Cut(cp.URI, "?")
				if i < 0 || !strings.HasSuffix(loc[:i], reqPath) {
					return fail("Location %q is not the request path %q followed by the id", loc, reqPath)
				}
				if got, kerr := denotedKey(*mi.KeyType, loc[i+1:]); kerr != nil || got != want {
					return fail("the last segment of Location %q does not denote the created id %s (%v)", loc, cr.Id.Canon(), kerr)
				}
				rec.Label("envelope_location_compared", 1)
			}
		}
		if !mi.M.ReturnEntity && rt != nil {
			return fail("create without return entity answers with a body")
		}
	case mi.Rest() == "batch_create":
		if m := need("batch_create", []string{"elements"}); m != "" {
			return m
		}
		for i, e := range rt.Get("elements").Arr {
			if m := onlyMembers(e, []string{"status"}, "id", "location", "error", "entity"); m != "" {
				return fail("batch_create response element %d %s", i, m)
			}
		}
		if bc := c.Outcome.BatchCreated; c.Outcome.HasBatchCr && mi.KeyType != nil {
			if len(rt.Get("elements").Arr) != len(bc) {
				return fail("batch_create response has %d elements, the resource returned %d", len(rt.Get("elements").Arr), len(bc))
			}
			for i, e := range rt.Get("elements").Arr {
				id := e.Get("id")
				if bc[i] == nil || bc[i].Nil || bc[i].Id == nil || id == nil {
					continue
				}
				if id.Kind != "str" {
					return fail("batch_create response element %d: id is not a string", i)
				}
				if got, kerr := denotedKey(*mi.KeyType, id.Str); kerr != nil || got != keyIdentity(*mi.KeyType, bc[i].Id) {
					return fail("batch_create response element %d: id %q does not denote the created id %s (%v)", i, id.Str, bc[i].Id.Canon(), kerr)
				}
				rec.Label("envelope_batch_created_id_compared", 1)
			}
		}
	case strings.HasPrefix(mi.Rest(), "batch_"):
		if m := need(name, []string{"results"}, "statuses", "errors"); m != "" {
			return m
		}
		if c.Outcome.HasBatch && mi.KeyType != nil {
			if m := sameKeySet(*mi.KeyType, rt.Get("results"), kvKeys(c.Outcome.Results)); m != "" {
				return fail("%s response: results %s", name, m)
			}
			if rt.Get("errors") != nil || len(c.Outcome.Errors) > 0 {
				if m := sameKeySet(*mi.KeyType, rt.Get("errors"), kvKeys(c.Outcome.Errors)); m != "" {
					return fail("%s response: errors %s", name, m)
				}
			}
			rec.Label("envelope_batch_keys_compared", 1)
		}
		if mi.Rest() != "batch_get" {
			for _, kv := range rt.Get("results").Obj {
				if m := onlyMembers(kv.V, []string{"status"}, "entity"); m != "" {
					return fail("%s result %s %s", name, kv.K, m)
				}
			}
		}
	case mi.Rest() == "get":
		if rt == nil || rt.Kind != "obj" {
			return fail("get response is not a JSON object")
		}
	case mi.Rest() == "update" || mi.Rest() == "delete" || (mi.Rest() == "partial_update" && !mi.M.ReturnEntity):
		if rt != nil {
			return fail("%s answers with a body", name)
		}
		if cp.Status != 204 && c.Outcome.StatusOverride == 0 {
			return fail("%s answered %d, want 204", name, cp.Status)
		}
	}
	return ""
}

func clip(s string) string {
	if len(s) > 600 {
		return s[:300] + "...[" + fmt.Sprint(len(s)-600) + " bytes]..." + s[len(s)-300:]
	}
	return s
}

func TestC03Envelope(t *testing.T) {
	rec := stats.For("C03")
	g := keyGen()
	if c, ok := hx.Replay[callCase]("C03", "envelope"); ok {
		if msg := checkEnvelope(rec, c); msg != "" {
			rec.Violation("envelope", msg, c)
			t.Fatal(msg)
		}
		return
	} else if hx.Replaying() {
		t.Skip()
	}
	rapid.Check(t, func(rt *rapid.T) {
		mi := methods[pick(rt, len(methods), "method")]
		c := callCase{CorpusSeed: corpusSeed, Mount: "bare"}
		c.Config.Threshold = rapid.SampledFrom([]int{0, 0, 1, 50}).Draw(rt, "threshold")
		c.Config.Transport = "inprocess"
		c.Call = genCall(rt, g, mi)
		c.Outcome = genOutcome(rt, g, mi, &c.Call)
		if msg := checkEnvelope(rec, c); msg != "" {
			rec.Violation("envelope", msg, c)
			rt.Fatalf("property violated (details in the replay file)")
		}
	})
}
