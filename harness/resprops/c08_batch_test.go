package resprops

// C08, last clause: "per-key errors in batch responses arrive under the right key". Batch calls (get, update, partial
// update, delete) whose resource answers a mix of results and full error responses per key; the client must hand back
// every error under the key it was returned for, equal in all fields, and every result under its key (C02's comparison of
// outcomes, run here under C08 with at least one per-key error in every case).

import (
	"fmt"
	"testing"

	"pgregory.net/rapid"

	"verif/HARNESS/dyn"
	"verif/core/hx"
	"verif/core/stats"
)

func checkBatchErrors(rec *stats.Recorder, c callCase) string {
	mi := dyn.FindMethod(S, c.Call.Resource, c.Call.Method)
	w := getWorld(c.Mount)
	rec.Case("batch_errors", "method="+mi.Rest(), fmt.Sprintf("errors=%d", min3(len(c.Outcome.Errors))), fmt.Sprintf("results=%d", min3(len(c.Outcome.Results))))
	rec.NonTrivial("batch-errors", "be|"+hx.J(c.Call)+hx.J(c.Outcome), func() any { return c })
	var got *dyn.Outcome
	var err error
	var sl *slot
	if p, pv, st := hx.Try(func() { got, err, sl, _, _ = w.do(c.Config, &c.Call, &c.Outcome, nil) }); p {
		return fmt.Sprintf("client call panicked: %v\n%s", pv, st)
	}
	if msg := judgeCall(mi, &c, got, err, sl); msg != "" {
		return msg
	}
	if sl != nil && len(sl.wire) == 1 {
		cp := sl.wire[0]
		if cp.Status != 200 {
			return fmt.Sprintf("a batch response with per-key errors was answered %d, want 200 (the errors travel per key)", cp.Status)
		}
		if cp.RespHdr.Get("X-RestLi-Error-Response") != "" {
			return "a batch response with per-key errors carries the error header (the call itself succeeded)"
		}
	}
	return ""
}

func TestC08BatchErrors(t *testing.T) {
	rec := stats.For("C08")
	g := keyGen()
	if c, ok := hx.Replay[callCase]("C08", "batch-errors"); ok {
		if msg := checkBatchErrors(rec, c); msg != "" {
			rec.Violation("batch-errors", msg, c)
			t.Fatal(msg)
		}
		return
	} else if hx.Replaying() {
		t.Skip()
	}
	var ms []*dyn.MethodInfo
	for _, mi := range methods {
		switch mi.Rest() {
		case "batch_get", "batch_update", "batch_partial_update", "batch_delete":
			if mi.M.Kind == "REST_METHOD" {
				ms = append(ms, mi)
			}
		}
	}
	rapid.Check(t, func(rt *rapid.T) {
		mi := ms[pick(rt, len(ms), "method")]
		c := callCase{CorpusSeed: corpusSeed, Mount: "bare"}
		c.Config.Threshold = rapid.SampledFrom([]int{0, 0, 1}).Draw(rt, "threshold")
		c.Config.Transport = "inprocess"
		c.Call = genCall(rt, g, mi)
		c.Outcome = genOutcome(rt, g, mi, &c.Call)
		// turn some of the keys' answers into full error responses (at least one when there is a key at all)
		var keys []dyn.KV
		keys = append(keys, c.Outcome.Results...)
		keys = append(keys, c.Outcome.Errors...)
		if len(keys) == 0 {
			rt.Skip()
		}
		c.Outcome.Results, c.Outcome.Errors = nil, nil
		forced := rapid.IntRange(0, len(keys)-1).Draw(rt, "forced_error")
		dropped := map[string]bool{}
		for i, kv := range keys {
			if i == forced || rapid.IntRange(0, 2).Draw(rt, "as_error") == 0 {
				e := genErrM(rt)
				e.Restrict()
				c.Outcome.Errors = append(c.Outcome.Errors, dyn.KV{K: kv.K, Err: e})
				dropped[keyIdentity(*mi.KeyType, kv.K)] = true
			} else if kv.Err == nil {
				c.Outcome.Results = append(c.Outcome.Results, kv)
			} else {
				c.Outcome.Errors = append(c.Outcome.Errors, kv)
				dropped[keyIdentity(*mi.KeyType, kv.K)] = true
			}
		}
		// a key answered with an error has no status entry
		st := c.Outcome.Statuses[:0]
		for _, kv := range c.Outcome.Statuses {
			if !dropped[keyIdentity(*mi.KeyType, kv.K)] {
				st = append(st, kv)
			}
		}
		c.Outcome.Statuses = st
		if msg := checkBatchErrors(rec, c); msg != "" {
			rec.Violation("batch-errors", msg, c)
			rt.Fatalf("property violated (details in the replay file)")
		}
	})
}
