// gendrv1 runs the working tree's root-module code generator (cobra command) on a parsed spec:
//   gendrv1 -p <package prefix> -o <output dir> spec.json
package main

import (
	"fmt"
	"os"

	"github.com/PapaCharlie/go-restli/cmd"
)

func main() {
	if err := cmd.CodeGenerator().Execute(); err != nil {
		fmt.Fprintln(os.Stderr, "GENERATOR-ERROR:", err)
		os.Exit(3)
	}
}
