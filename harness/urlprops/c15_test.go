package urlprops

// C15 - request URL construction preserves resolver base, resource path and query.
//
// Domain: base URL (scheme x host x context path of 0-3 segments drawn from {root as last segment,
// root-with-suffix, prefix-of-root, other} x trailing slash) x encoded resource path (root, keys,
// sub-resources; key segments over the alphabet the path encoder can emit: unreserved characters,
// %XX triplets, ROR2 delimiters, "." and "..") x query (nil, empty, over the alphabet the query
// encoder can emit).
// Oracle: model URL written from the property text (modelURL below); byte equality of scheme, host,
// EscapedPath, RawQuery and of the request-target that goes on the wire.

import (
	"context"
	"fmt"
	"net/http"
	"net/url"
	"strings"
	"testing"

	"github.com/PapaCharlie/go-restli/v2/restli"
	"github.com/PapaCharlie/go-restli/v2/restlicodec"
	"pgregory.net/rapid"

	"verif/core/hx"
	"verif/core/kf"
	"verif/core/stats"
)

func TestMain(m *testing.M) { hx.Main(m) }

type urlCase struct {
	Scheme   string   `json:"scheme"`
	Host     string   `json:"host"`
	Context  []string `json:"context"` // already-escaped segments
	Trailing bool     `json:"trailing_slash"`
	Root     string   `json:"root"`
	Rest     []string `json:"rest"` // encoded segments after the root
	HasQuery bool     `json:"has_query"`
	Query    string   `json:"query"`
	Body     bool     `json:"with_body"`
	// Tunnel: the client's query tunnelling threshold is 1, so every query longer than one byte travels in the body;
	// scheme, host and the encoded path of the request URL must be what they are without tunnelling
	Tunnel bool `json:"tunnel,omitempty"`
}

func (c urlCase) base() string {
	b := c.Scheme + "://" + c.Host
	for _, s := range c.Context {
		b += "/" + s
	}
	if c.Trailing {
		b += "/"
	}
	return b
}

func (c urlCase) resourcePath() string {
	p := "/" + c.Root
	for _, s := range c.Rest {
		p += "/" + s
	}
	return p
}

// rootAsInnerSegment: the combination the property leaves unspecified.
func (c urlCase) rootAsInnerSegment() bool {
	for i, s := range c.Context {
		if s == c.Root && i != len(c.Context)-1 {
			return true
		}
	}
	return false
}

func modelURL(c urlCase) (path, query string) {
	ctx := c.Context
	if n := len(ctx); n > 0 && ctx[n-1] == c.Root {
		ctx = ctx[:n-1]
	}
	for _, s := range ctx {
		path += "/" + s
	}
	return path + c.resourcePath(), c.Query
}

const unreserved = "abcdefghijklmnopqrstuvwxyzABCXYZ0123456789-_.~"

// what Ror2PathEscape leaves raw plus what the ROR2 path writer itself emits
var pathTokens = []string{"(", ")", ":", ",", "'", "''", "List(", "!", "*", "$", "&", "+", "=", "@", ".", "..", "%25", "%2F", "%2f",
	"%3A", "%20", "%3B", "%3F", "%23", "%2E", "%2e%2e", "%C3%A9", "%00", "%FF", "%2525", "a", "b", "1", "x.y", "$params", "-", "_", "~"}

// what Ror2QueryEscape leaves raw plus what BuildQueryParams emits
var queryTokens = []string{"(", ")", ":", ",", "'", "''", "List(", "!", "*", "$", "-", ".", "/", ";", "?", "@", "_", "~", "&", "=",
	"%25", "%26", "%3D", "%2B", "%20", "%23", "%2F", "%C3%A9", "%00", "q", "ids", "a", "b", "1", "..", "//"}

func genSegment(t *rapid.T, label string, tokens []string) string {
	n := rapid.IntRange(1, 5).Draw(t, label+"_n")
	var b strings.Builder
	for i := 0; i < n; i++ {
		if rapid.IntRange(0, 3).Draw(t, label+"_k") == 0 {
			b.WriteByte(unreserved[rapid.IntRange(0, len(unreserved)-1).Draw(t, label+"_c")])
		} else {
			b.WriteString(rapid.SampledFrom(tokens).Draw(t, label+"_t"))
		}
	}
	return b.String()
}

func genCase(t *rapid.T) urlCase {
	var c urlCase
	c.Scheme = rapid.SampledFrom([]string{"http", "https"}).Draw(t, "scheme")
	c.Host = rapid.SampledFrom([]string{"h", "example.com", "example.com:8080", "127.0.0.1:1", "[::1]:8443", "a-b.c"}).Draw(t, "host")
	c.Root = rapid.SampledFrom([]string{"coll", "a", "greetings", "x1", "Coll_2"}).Draw(t, "root")
	if c.Root != "Coll_2" && rapid.IntRange(0, 7).Draw(t, "host_is_root") == 0 {
		c.Host = c.Root // a host named like the root resource: only path segments may be taken for the root
	}
	nctx := rapid.IntRange(0, 3).Draw(t, "nctx")
	for i := 0; i < nctx; i++ {
		kind := rapid.IntRange(0, 5).Draw(t, "ctxkind")
		var s string
		switch kind {
		case 0: // the root name itself (asserted only as last segment)
			s = c.Root
		case 1: // root with suffix
			s = c.Root + rapid.SampledFrom([]string{"x", "s", "2", "-v2", ".d", "%20"}).Draw(t, "suffix")
		case 2: // proper prefix of root, or root as suffix of the segment
			if len(c.Root) > 1 && rapid.Bool().Draw(t, "pfx") {
				s = c.Root[:len(c.Root)-1]
			} else {
				s = "x" + c.Root
			}
		default:
			s = rapid.SampledFrom([]string{"api", "v1", "ctx", "svc-1", "a%20b", "d2", "restli"}).Draw(t, "other")
		}
		c.Context = append(c.Context, s)
	}
	c.Trailing = rapid.Bool().Draw(t, "trailing")
	nrest := rapid.IntRange(0, 3).Draw(t, "nrest")
	for i := 0; i < nrest; i++ {
		if i%2 == 1 && rapid.Bool().Draw(t, "subres") {
			c.Rest = append(c.Rest, rapid.SampledFrom([]string{"sub", "items", c.Root}).Draw(t, "sub"))
		} else {
			c.Rest = append(c.Rest, genSegment(t, "seg", pathTokens))
		}
	}
	c.HasQuery = rapid.IntRange(0, 3).Draw(t, "hasq") > 0
	if c.HasQuery && rapid.IntRange(0, 5).Draw(t, "emptyq") > 0 {
		np := rapid.IntRange(1, 3).Draw(t, "nparams")
		var parts []string
		for i := 0; i < np; i++ {
			parts = append(parts, rapid.SampledFrom([]string{"q", "ids", "p", "action", "start"}).Draw(t, "pname")+"="+genSegment(t, "qv", queryTokens))
		}
		c.Query = strings.Join(parts, "&")
	}
	c.Body = rapid.Bool().Draw(t, "body")
	c.Tunnel = rapid.IntRange(0, 3).Draw(t, "tunnel") == 0
	return c
}

type resolver struct{ u *url.URL }

func (r resolver) ResolveHostnameAndContextForQuery(string, *url.URL) (*url.URL, error) { return r.u, nil }

type jsonBody struct{}

func (jsonBody) MarshalRestLi(w restlicodec.Writer) error {
	return w.WriteMap(func(kw func(string) restlicodec.Writer) error { kw("f").WriteInt32(1); return nil })
}

func isDotSegmentCase(c urlCase) bool {
	for _, s := range c.Rest {
		if s == "." || s == ".." {
			return true
		}
	}
	return false
}

// checkURL returns "" when the property holds for c, or a description of the violation.
func checkURL(rec *stats.Recorder, c urlCase) (msg string, known string) {
	base, err := url.Parse(c.base())
	if err != nil {
		return "", "" // not a base URL a resolver could return; generator does not produce these
	}
	baseBefore := base.String()
	cl := &restli.Client{Client: http.DefaultClient, HostnameResolver: resolver{base}}
	tunnelled := c.Tunnel && c.HasQuery && len(c.Query) > 1
	if c.Tunnel {
		cl.QueryTunnellingThreshold = 1
	}
	rp := restli.ResourcePathString(c.resourcePath())
	var q restli.QueryParamsEncoder
	if c.HasQuery {
		q = restli.QueryParamsString(c.Query)
	}
	var req *http.Request
	panicked, pv, stack := hx.Try(func() {
		if c.Body {
			req, err = restli.NewJsonRequest(cl, context.Background(), rp, q, http.MethodPut, restli.Method_update, jsonBody{}, nil)
		} else {
			req, err = restli.NewGetRequest(cl, context.Background(), rp, q, restli.Method_get)
		}
	})
	if panicked {
		return fmt.Sprintf("request construction panicked: %v\n%s", pv, stack), ""
	}
	unspecified := c.rootAsInnerSegment()
	labels := []string{fmt.Sprintf("ctx_segments=%d", len(c.Context))}
	if unspecified {
		labels = append(labels, "unspecified_root_inner_segment")
	}
	if c.HasQuery {
		labels = append(labels, "has_query")
	}
	if n := len(c.Context); n > 0 && c.Context[n-1] == c.Root {
		labels = append(labels, "ctx_ends_with_root")
	}
	if isDotSegmentCase(c) {
		labels = append(labels, "dot_segment_key")
	}
	if tunnelled {
		labels = append(labels, "query_tunnelled")
	}
	rec.Case(labels...)
	full := c.resourcePath() + "?" + c.Query
	if len(c.Context) > 0 || strings.ContainsAny(full, "%(),:'") || isDotSegmentCase(c) {
		rec.NonTrivial("url", c.base()+"|"+full+fmt.Sprint(c.HasQuery, c.Body), func() any { return c })
	}
	if unspecified {
		if err == nil && req == nil {
			return "nil request without error", ""
		}
		return "", ""
	}
	wantPath, wantQuery := modelURL(c)
	fail := func(format string, a ...any) (string, string) {
		m := fmt.Sprintf(format, a...) + fmt.Sprintf("\n base=%q resourcePath=%q query=%q hasQuery=%v", c.base(), c.resourcePath(), c.Query, c.HasQuery)
		// signatures of open known findings (active only while listed as open)
		if isDotSegmentCase(c) && kf.Open("KF-C15-dot-segments") {
			return "", "KF-C15-dot-segments"
		}
		return m, ""
	}
	if err != nil {
		return fail("request construction failed: %v", err)
	}
	u := req.URL
	if u.Scheme != c.Scheme || u.Host != c.Host {
		return fail("scheme/host changed: got %s://%s want %s://%s", u.Scheme, u.Host, c.Scheme, c.Host)
	}
	if got := u.EscapedPath(); got != wantPath {
		return fail("path: got %q want %q", got, wantPath)
	}
	if tunnelled {
		if u.RawQuery != "" {
			return fail("tunnelled request keeps a URL query: %q", u.RawQuery)
		}
		wantQuery = ""
	}
	if u.RawQuery != wantQuery {
		return fail("query: got %q want %q", u.RawQuery, wantQuery)
	}
	wantTarget := wantPath
	if wantQuery != "" {
		wantTarget += "?" + wantQuery
	}
	// an empty query may or may not keep its "?" (both denote the same request)
	if got := u.RequestURI(); got != wantTarget && !(wantQuery == "" && got == wantTarget+"?") {
		return fail("request target: got %q want %q", got, wantTarget)
	}
	if u.Fragment != "" || u.User != nil {
		return fail("unexpected fragment/userinfo in %q", u.String())
	}
	// resolvers hand out one long-lived URL object for every query (SimpleHostnameResolver, D2): a second request
	// through the same client, to another root resource, must again be base + resource path
	c2 := c
	c2.Root, c2.Rest, c2.HasQuery, c2.Query = "zz9", []string{"7"}, false, ""
	var req2 *http.Request
	if p, pv, st := hx.Try(func() {
		req2, err = restli.NewGetRequest(cl, context.Background(), restli.ResourcePathString(c2.resourcePath()), nil, restli.Method_get)
	}); p {
		return fmt.Sprintf("request construction panicked on the second request: %v\n%s", pv, st), ""
	}
	if err != nil {
		return fail("second request through the same client failed: %v", err)
	}
	if want2, _ := modelURL(c2); req2.URL.EscapedPath() != want2 || req2.URL.Host != c.Host || req2.URL.Scheme != c.Scheme {
		return fail("a second request through the same client (to /zz9/7) went to %q, want %s://%s%s: the first request changed the resolver's base", req2.URL.String(), c.Scheme, c.Host, want2)
	}
	if base.String() != baseBefore {
		return fail("the resolver's base URL object was modified: %q -> %q", baseBefore, base.String())
	}
	return "", ""
}

func TestC15URL(t *testing.T) {
	rec := stats.For("C15")
	if c, ok := hx.Replay[urlCase]("C15", ""); ok {
		if msg, _ := checkURL(rec, c); msg != "" {
			rec.Violation("url", msg, c)
			t.Fatal(msg)
		}
		return
	} else if hx.Replaying() {
		t.Skip()
	}
	rapid.Check(t, func(rt *rapid.T) {
		c := genCase(rt)
		msg, known := checkURL(rec, c)
		if known != "" {
			rec.Known(known, kf.What(known), c)
			return
		}
		if msg != "" {
			rec.Violation("url", msg, c)
			rt.Fatalf("property violated (details in the replay file)")
		}
	})
}

func TestC15Regress(t *testing.T) {
	rec := stats.For("C15")
	if hx.Replaying() {
		t.Skip()
	}
	for i, c := range regressionCases {
		if msg, known := checkURL(rec, c); msg != "" {
			rec.Violation(fmt.Sprintf("url-regress%d", i), msg, c)
			t.Error(msg)
		} else if known != "" {
			rec.Known(known, kf.What(known), c)
		}
	}
}

// minimal reproductions kept from earlier findings; evaluated first in every tier
var regressionCases = []urlCase{
	{Scheme: "http", Host: "h", Context: []string{"collx", "coll"}, Root: "coll", Rest: []string{"1"}},
	{Scheme: "http", Host: "h", Context: []string{"xcoll", "coll"}, Root: "coll", Rest: []string{"1"}},
	{Scheme: "http", Host: "h", Context: []string{"api"}, Trailing: true, Root: "coll", Rest: []string{".."}},
	{Scheme: "http", Host: "h", Root: "coll", Rest: []string{"."}, HasQuery: true, Query: "a=1"},
	{Scheme: "https", Host: "example.com:8080", Context: []string{"api", "coll"}, Root: "coll", Rest: []string{"a%2Fb", "sub", "%25"}, HasQuery: true, Query: "q=f&x=%26"},
}
